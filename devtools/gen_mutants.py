#!/usr/bin/env python3
"""Generates /verif/checker/mutants.json: the sensitivity mutants of the thorough tier.
Each entry is a textual edit of the CURRENT /repo sources that is applied in memory (never on disk)
by the checker. 'detect' edits break the property; 'silent' edits preserve behaviour."""
import json

B = 'grpcgcp/gcp_balancer.go'
P = 'grpcgcp/gcp_picker.go'
I = 'grpcgcp/gcp_interceptor.go'
G = 'grpcgcp/gcp_multiendpoint.go'
M = 'grpcgcp/multiendpoint/multiendpoint.go'
PR = 'spanner_prober/prober/proberlib.go'
PI = 'spanner_prober/prober/interceptors.go'
PM = 'spanner_prober/main.go'
CS = 'e2e-checksum/main.go'

T = []
def m(prop, f, old, new, note, expect='detect'):
    T.append(dict(Prop=prop, File=f, Old=old, New=new, Expect=expect, Note=note))

# ---------------- C01
m('C01', B, '\tif !ok {\n\t\tgb.affinityMap[bindKey] = sc\n\t}', '\tgb.affinityMap[bindKey] = sc\n\t_ = ok', 'BIND re-binds an already bound key')
m('C01', P, '\t\tif info.Err != nil {\n\t\t\treturn\n\t\t}\n', '\t\tif info.Err != nil && cmd != grpc_gcp.AffinityConfig_BIND {\n\t\t\treturn\n\t\t}\n', 'failed BIND still binds')
m('C01', P, 'p.gb.bindSubConn(bk, scRef.getSubConn())', 'p.gb.bindSubConn(bk, p.scRefs[0].getSubConn())', 'key bound to another slot')
m('C01', P, 'if hasGCPCtx && (cmd == grpc_gcp.AffinityConfig_BOUND || cmd == grpc_gcp.AffinityConfig_UNBIND) {', 'if hasGCPCtx && cmd == grpc_gcp.AffinityConfig_BOUND {', 'UNBIND calls lose their key')
m('C01', B, 'if gb.scStates[sc] != connectivity.Ready {', 'if gb.scStates[sc] == connectivity.TransientFailure {', 'bound slot returned without READY test')
m('C01', B, '\t\t\treturn nil, true\n\t\t}\n\t\treturn gb.scRefs[sc], true', '\t\t\treturn nil, false\n\t\t}\n\t\treturn gb.scRefs[sc], true', 'bound key with non-READY home is load-balanced')
m('C01', B, '\t\tfor k, v := range gb.affinityMap {\n\t\t\tif v == oldSc {\n\t\t\t\tgb.affinityMap[k] = sc\n\t\t\t}\n\t\t}\n', '', 'refresh swap does not re-key affinityMap (F2)')
m('C01', P, 'a, err := getAffinityKeysFromMessage(locator, gcpCtx.reqMsg)', 'a, err := getAffinityKeysFromMessage(locator, gcpCtx.replyMsg)', 'request key taken from the reply')
m('C01', B, '\t\tfor k, v := range gb.affinityMap {\n\t\t\tif v == oldSc {\n\t\t\t\tgb.affinityMap[k] = sc\n\t\t\t}\n\t\t}\n', '\t\tfor k, v := range gb.affinityMap {\n\t\t\tif v != oldSc {\n\t\t\t\tcontinue\n\t\t\t}\n\t\t\tgb.affinityMap[k] = sc\n\t\t}\n', 're-key loop written with continue', 'silent')

m('C01', P, '\t\tif hasGCPCtx && (cmd == grpc_gcp.AffinityConfig_BOUND || cmd == grpc_gcp.AffinityConfig_UNBIND) {', '\t\tif hasGCPCtx && len(p.scRefs) > 1 && (cmd == grpc_gcp.AffinityConfig_BOUND || cmd == grpc_gcp.AffinityConfig_UNBIND) {', 'request key extracted only when a further, unrelated condition holds')
# ---------------- C02
m('C02', P, '\t\tscRef.streamsDecr()\n\t\tp.detectUnresponsive(ctx, scRef, callStarted, info.Err)\n\t\tif info.Err != nil {\n\t\t\treturn\n\t\t}\n', '\t\tp.detectUnresponsive(ctx, scRef, callStarted, info.Err)\n\t\tif info.Err != nil {\n\t\t\treturn\n\t\t}\n\t\tscRef.streamsDecr()\n', 'decrement skipped on failed calls')
m('C02', P, '\t\tscRef.streamsIncr()\n\t\treturn scRef, nil\n\t}\n', '\t\treturn scRef, nil\n\t}\n', 'round-robin placement not counted')
m('C02', P, 'cnt < minStreamsCnt', 'cnt > minStreamsCnt', 'least-busy comparator flipped')
m('C02', P, 'cnt < minStreamsCnt', 'cnt <= minStreamsCnt', 'ties resolved differently', 'silent')
m('C02', P, 'cnt < minStreamsCnt', 'minStreamsCnt > cnt', 'operands swapped', 'silent')
m('C02', B, 'if scState == connectivity.Ready {\n\t\t\treadyRefs', 'if scState == connectivity.Ready || scState == connectivity.Idle {\n\t\t\treadyRefs', 'picker snapshot contains non-READY slots')
m('C02', B, '\t\tgb.scRefs[sc] = scRef\n\t\tscRef.mu.Lock()\n\t\tscRef.subConn = sc', '\t\tscRef = &subConnRef{subConn: sc, stateSignal: scRef.stateSignal, lastResp: scRef.lastResp}\n\t\tgb.scRefs[sc] = scRef\n\t\tscRef.mu.Lock()\n\t\tscRef.subConn = sc', 'refresh swap allocates a new slot (counts lost)')
m('C02', P, '\t\t\tp.gb.unbindSubConn(boundKey)', '\t\t\tp.gb.unbindSubConn(boundKey)\n\t\t\tscRef.streamsDecr()', 'double decrement on UNBIND')
m('C02', P, '\tcallStarted := time.Now()', '\tif info.Ctx.Err() != nil {\n\t\treturn balancer.PickResult{}, info.Ctx.Err()\n\t}\n\tcallStarted := time.Now()', 'Pick can fail after the placement was counted')
m('C02', P, '\tif scRef != nil {\n\t\tscRef.streamsIncr()\n\t}', '\tif scRef != nil {\n\t\tp.scRefs[0].streamsIncr()\n\t}', 'increment on a different slot')

# ---------------- C03
m('C03', P, 'if minStreamsCnt < int32(p.gb.cfg.GetChannelPool().GetMaxConcurrentStreamsLowWatermark()) {', 'if minStreamsCnt < int32(p.gb.cfg.GetChannelPool().GetMaxConcurrentStreamsLowWatermark())/2 {', 'growth before saturation')
m('C03', P, '\t\tp.gb.newSubConn()\n\n\t\t// Let this picker return ErrNoSubConnAvailable because it needs some time\n\t\t// for the subconn to be READY.\n\t\treturn nil, balancer.ErrNoSubConnAvailable', '\t\tp.gb.newSubConn()\n\t\treturn minScRef, nil', 'growth-triggering pick is also placed')
m('C03', B, 'if scState == connectivity.Connecting || scState == connectivity.Idle {', 'if scState == connectivity.Connecting {', 'creation not refused while a connection is idle')
m('C03', B, 'maxSize > 0 && len(gb.scRefs) >= maxSize', 'maxSize > 0 && len(gb.scRefs) > maxSize', 'locked maxSize re-check off by one')
m('C03', B, 'for len(gb.scRefs) < int(gb.cfg.GetChannelPool().GetMinSize()) {', 'for len(gb.scRefs) < int(gb.cfg.GetChannelPool().GetMaxSize()) {', 'initial fill uses maxSize')
m('C06', B, '\t\tif !gb.addSubConn() {\n\t\t\t// Do not spin (holding the lock) when SubConns cannot be created.\n\t\t\treturn\n\t\t}', '\t\tif !gb.addSubConn() && len(gb.scRefs) > 0 {\n\t\t\treturn\n\t\t}', 'minimum-size loop does not stop on a failed creation')
m('C03', B, 'for len(gb.scRefs) < int(gb.cfg.GetChannelPool().GetMinSize()) {\n\t\tif !gb.addSubConn() {', 'for {\n\t\tif len(gb.scRefs) >= int(gb.cfg.GetChannelPool().GetMinSize()) {\n\t\t\treturn\n\t\t}\n\t\tif !gb.addSubConn() {', 'minimum-size loop written with an inner exit test', 'silent')
m('C03', B, 'gb.cc.RemoveSubConn(oldSc)', 'gb.cc.RemoveSubConn(sc)', 'swap removes the replacement instead of the old connection')
m('C03', P, 'p.gb.getConnectionPoolSize() < int(p.gb.cfg.GetChannelPool().GetMaxSize())', 'p.gb.getConnectionPoolSize() <= int(p.gb.cfg.GetChannelPool().GetMaxSize())', 'at maxSize calls are refused instead of placed')

# ---------------- C04
m('C04', B, '\tif cse.numConnecting > 0 {\n\t\treturn connectivity.Connecting\n\t}\n\treturn connectivity.TransientFailure', '\tif cse.numTransientFailure > 0 {\n\t\treturn connectivity.TransientFailure\n\t}\n\treturn connectivity.Connecting', 'CONNECTING/TRANSIENT_FAILURE priority swapped')
m('C04', B, 'if gb.state == connectivity.TransientFailure {\n\t\tgb.picker = newErrPicker', 'if gb.state != connectivity.Ready {\n\t\tgb.picker = newErrPicker', 'error picker keyed on != READY')
m('C04', B, '\t\tdelete(gb.scStates, oldSc)\n', '', 'state transfer forgets to delete the old entry')
m('C04', B, '\toldS, ok := gb.scStates[sc]\n\tif !ok {', '\toldS, ok := gb.scStates[sc]\n\tif !ok && s != connectivity.Ready {', 'unknown connections reach the evaluator')
m('C04', B, 'case connectivity.Connecting:\n\t\t\tcse.numConnecting += updateVal', 'case connectivity.Connecting, connectivity.Idle:\n\t\t\tcse.numConnecting += updateVal', 'Idle counted as connecting')
m('C04', B, '(gb.state == connectivity.TransientFailure) != (oldAggrState == connectivity.TransientFailure) {', '(gb.state == connectivity.TransientFailure) != (oldAggrState == connectivity.TransientFailure) && s != connectivity.Idle {', 'publish condition loses a case')

# ---------------- wave 10 rules
m('C01', B, '\t_, ok := gb.affinityMap[bindKey]\n\tif !ok {\n\t\tgb.affinityMap[bindKey] = sc\n\t}', '\t_, ok := gb.affinityMap[bindKey]\n\tgb.mu.Unlock()\n\tgb.mu.Lock()\n\tif !ok {\n\t\tgb.affinityMap[bindKey] = sc\n\t}', 'gb.mu released between the not-bound test and the insert')
m('C04', B, '\tgb.scStates[sc] = s\n\tswitch s {', '\tif s != connectivity.Idle {\n\t\tgb.scStates[sc] = s\n\t}\n\tswitch s {', 'an IDLE report is counted but not recorded')
m('C04', B, '\t\tgb.regeneratePicker()\n\t\tgb.cc.UpdateState(balancer.State{\n\t\t\tConnectivityState: gb.state,\n\t\t\tPicker:            gb.picker,\n\t\t})\n\t}\n', '\t\tgb.regeneratePicker()\n\t\tgb.cc.UpdateState(balancer.State{\n\t\t\tConnectivityState: gb.state,\n\t\t\tPicker:            gb.picker,\n\t\t})\n\t}\n\tif s == connectivity.Shutdown {\n\t\tdelete(gb.scRefs, sc)\n\t}\n', 'a table write follows the picker snapshot')
m('C08', B, '\t\t\tif v == sc {\n\t\t\t\tdelete(gb.fallbackMap, k)\n\t\t\t}', '\t\t\tif v == sc {\n\t\t\t\tdelete(gb.fallbackMap, k)\n\t\t\t\tbreak\n\t\t\t}', 'the stand-in purge stops at the first match')
m('C20', B, '\t\tdelete(gb.refreshingScRefs, sc)\n', '\t\tdelete(gb.refreshingScRefs, sc)\n\t\tgb.mu.Unlock()\n\t\tgb.mu.Lock()\n', 'gb.mu released in the middle of the take-over')
m('C17', B, '\tif cp.GetMinSize() == 0 {\n\t\tcp.MinSize = defaultMinSize\n\t}\n\tif cp.GetMaxSize() == 0 {', '\tif cp.GetMinSize() == 0 {\n\t\tcp.MinSize = defaultMinSize\n\t} else if cp.GetMaxSize() == 0 {', 'maxSize defaulted only when minSize was set (alternatives instead of independent tests)')
m('C18', PR, '\tif backoff > max {\n\t\tbackoff = max\n\t}', '\tif backoff > max && retries == 0 {\n\t\tbackoff = max\n\t}', 'clamp applied only when the retries ran out')

# ---------------- rules that no seeded change and no earlier mutant had fired
m('C07', P, '\t\tif window > math.MaxInt64/2 {\n', '\t\tif window > math.MaxInt64/2 && cnt < 8 {\n', 'the doubling of the window is guarded against overflow only for small refresh counts')
m('C07', P, '\t\twindow *= 2\n', '\t\twindow = time.Duration(int32(window) * 2)\n', 'the window is doubled in 32 bits')
m('C09', B, '\t\t// Inform of the state change.\n\t\tclose(scRef.stateSignal)\n\t\tscRef.stateSignal = make(chan struct{})\n', '\t\t// Inform of the state change.\n\t\tclose(scRef.stateSignal)\n', 'the state signal is closed but not re-created')
m('C09', B, '\t\t// Inform of the state change.\n\t\tclose(scRef.stateSignal)\n\t\tscRef.stateSignal = make(chan struct{})\n', '\t\tif s == connectivity.Ready {\n\t\t\tclose(scRef.stateSignal)\n\t\t\tscRef.stateSignal = make(chan struct{})\n\t\t}\n', 'waiters are woken only by READY reports')
m('C16', G, '\t\t\tif err := me.SetEndpoints(meo.Endpoints); err != nil {\n\t\t\t\treturn err\n\t\t\t}\n', '\t\t\tme.SetEndpoints(meo.Endpoints)\n', 'the error of SetEndpoints is dropped')
m('C06', B, '\t\tsigChan := scRef.stateSignal\n\t\tgb.mu.RUnlock()\n\t\tselect {\n\t\tcase <-ctx.Done():\n\t\t\treturn scRef\n\t\tcase <-ticker.C:\n\t\tcase <-sigChan:\n\t\t}\n\t\tgb.mu.RLock()\n', '\t\tsigChan := scRef.stateSignal\n\t\tselect {\n\t\tcase <-ctx.Done():\n\t\t\tgb.mu.RUnlock()\n\t\t\treturn scRef\n\t\tcase <-ticker.C:\n\t\tcase <-sigChan:\n\t\t}\n', 'the round-robin waiter blocks with the balancer lock read-held')
m('C06', B, '\t\tselect {\n\t\tcase <-ctx.Done():\n\t\t\treturn scRef\n\t\tcase <-ticker.C:\n\t\tcase <-sigChan:\n\t\t}\n', '\t\tselect {\n\t\tcase <-ctx.Done():\n\t\t\treturn scRef\n\t\tcase <-sigChan:\n\t\tdefault:\n\t\t}\n', 'the round-robin waiter spins (select with default)')

m('C15', G, '\t\tfor _, e := range meo.Endpoints {\n\t\t\tvalidPools[e] = true\n\t\t}\n\t}\n', '\t\tfor _, e := range meo.Endpoints {\n\t\t\tvalidPools[e] = true\n\t\t}\n\t\tif len(validPools) > 8 {\n\t\t\tbreak\n\t\t}\n\t}\n', 'the set of endpoints that keep or get a pool stops growing after eight: later entries lose their pools')

# ---------------- C05
m('C05', P, '\t\t\tif len(a) > 0 {\n\t\t\t\tboundKey = a[0]\n\t\t\t}', '\t\t\tboundKey = a[0]', 'index of a possibly empty key list (F6)')
m('C05', P, '\t\t\tif !hasGCPCtx {\n\t\t\t\t// No reply message to get affinity keys from (interceptor not installed).\n\t\t\t\treturn\n\t\t\t}\n', '', 'nil interceptor context dereferenced in the callback (F7)')
m('C05', B, '\tscRef, found := gb.scRefs[sc]\n\tif !found {\n\t\t// The SubConn is gone (e.g. shut down) by the time the call completed.\n\t\treturn\n\t}', '\tscRef := gb.scRefs[sc]', 'bind on a removed connection (F3)')
m('C05', B, '\tcase connectivity.Shutdown:\n\t\tdelete(gb.scRefs, sc)\n\t\tdelete(gb.scStates, sc)', '\tcase connectivity.Shutdown:\n\t\tdelete(gb.scRefs, sc)', 'scStates/scRefs key sets diverge (nil slot in picker)')
m('C05', B, '\t\tclose(scRef.stateSignal)\n\t\tscRef.stateSignal = make(chan struct{})', '\t\tclose(scRef.stateSignal)', 'double close of the state signal')
m('C05', B, '\tif scRef := gb.scRefs[sc]; scRef != nil {', '\tif scRef := gb.scRefs[sc]; true {', 'nil slot dereferenced after Shutdown')
m('C05', B, 'if p, ok := gb.picker.(*gcpPicker); ok {', 'if p := gb.picker.(*gcpPicker); p != nil {', 'unchecked picker assertion (F4a)')

m('C05', P, 'if dl, ok := ctx.Deadline(); rpcErr == nil || status.Code(rpcErr) != codes.DeadlineExceeded ||\n\t\trpcErr.Error() != deErr.Error()', 'if dl, ok := ctx.Deadline(); rpcErr.Error() != deErr.Error()', 'completion error dereferenced without the nil test (nil-capable parameter)')
# ---------------- C06
m('C06', B, '\t\t// The mutex is already held here.\n\t\tgb.newSubConnLocked()', '\t\tgb.newSubConn()', 'self-deadlock on an emptied pool (F1a)')
m('C06', B, '\t\tif !gb.addSubConn() {\n\t\t\t// Do not spin (holding the lock) when SubConns cannot be created.\n\t\t\treturn\n\t\t}', '\t\tgb.addSubConn()', 'min-size loop spins on a failing factory (F1c)')
m('C06', B, '\t\tsigChan := scRef.stateSignal\n\t\tgb.mu.RUnlock()\n\t\tselect {', '\t\tsigChan := scRef.stateSignal\n\t\tselect {', 'round-robin waiter blocks with the read lock held')
m('C06', B, '\tif s != connectivity.Ready {\n\t\t\t// Ignore the replacement sc until it\'s ready.\n\t\t\treturn\n\t\t}', '\tif s != connectivity.Ready {\n\t\t\tgb.regeneratePicker()\n\t\t\tgb.bindSubConn("", sc)\n\t\t\treturn\n\t\t}', 'nested acquisition of gb.mu from UpdateSubConnState')
m('C06', B, '\tgb.mu.Lock()\n\tdefer gb.mu.Unlock()\n\tif ref.refreshing {\n\t\treturn\n\t}', '\tgb.mu.Lock()\n\tif ref.refreshing {\n\t\treturn\n\t}\n\tdefer gb.mu.Unlock()', 'lock leaked on an early return')

m('C06', P, '\tgp := &gcpPicker{\n\t\tgb:     gb,\n\t\tscRefs: readySCRefs,\n\t}', '\ttmpl := gcpPicker{gb: gb}\n\tcp := tmpl\n\tgp := &cp\n\tgp.scRefs = readySCRefs', 'a picker (with its mutex) is copied by value')
# ---------------- C07
m('C07', P, '\tif callStarted.Before(scRef.getLastResp()) {\n\t\treturn\n\t}\n', '', 'calls started before the last response are counted')
m('C07', P, 'rpcErr.Error() != deErr.Error() || !ok || dl.After(time.Now())', '!ok || dl.After(time.Now())', 'server-side deadline errors count as unresponsive')
m('C07', B, '\tgb.refreshingScRefs[sc] = ref\n\tsc.Connect()', '\tgb.refreshingScRefs[sc] = ref\n\tgb.cc.RemoveSubConn(ref.subConn)\n\tsc.Connect()', 'old connection removed when the refresh starts')
m('C07', B, '\t\t// Allow a later refresh attempt.\n\t\tref.refreshing = false\n', '', 'failed replacement disables later refreshes (F5)')
m('C07', B, '\tif ref.refreshing {\n\t\treturn\n\t}\n\tref.refreshing = true', '\tref.refreshing = true', 'second replacement while a refresh is in progress')
m('C07', B, '\t\tscRef.refreshing = false\n', '', 'swap forgets to clear the refreshing flag')
m('C07', B, '\tref.refreshCnt = 0\n', '', 'a response does not reset the back-off exponent')
m('C07', P, 'scRef.deCallsInc() >= p.gb.cfg.GetChannelPool().GetUnresponsiveCalls()', 'scRef.deCallsInc() < p.gb.cfg.GetChannelPool().GetUnresponsiveCalls()', 'threshold comparison inverted')
m('C07', P, '\tif !p.gb.unresponsiveDetection {\n\t\treturn\n\t}\n', '', 'detection runs although disabled')

m('C07', P, '\tcallStarted := time.Now()\n', '\tcallStarted := time.Time{}\n', 'the call\'s start time is never taken')
m('C07', B, '\t\tlastResp:    time.Now(),\n', '', 'a new slot starts with a zero last-response time')
m('C07', P, '\tscRef, err := p.getAndIncrementSubConnRef(info.Ctx, boundKey, cmd)\n\tif err != nil {\n\t\treturn balancer.PickResult{}, err\n\t}\n\tif scRef == nil {\n\t\tif p.log.V(FINEST) {\n\t\t\tp.log.Info("returning balancer.ErrNoSubConnAvailable as no SubConn was picked.")\n\t\t}\n\t\treturn balancer.PickResult{}, balancer.ErrNoSubConnAvailable\n\t}\n\n\tcallStarted := time.Now()\n', '\tcallStarted := time.Now()\n\tscRef, err := p.getAndIncrementSubConnRef(info.Ctx, boundKey, cmd)\n\tif err != nil {\n\t\treturn balancer.PickResult{}, err\n\t}\n\tif scRef == nil {\n\t\tif p.log.V(FINEST) {\n\t\t\tp.log.Info("returning balancer.ErrNoSubConnAvailable as no SubConn was picked.")\n\t\t}\n\t\treturn balancer.PickResult{}, balancer.ErrNoSubConnAvailable\n\t}\n\n', 'the clock is read before the channel is chosen (seed C07-11)')
# ---------------- C08
m('C08', B, 'if scRef, _ := p.minStreamsSubConnRef(); scRef != nil {', 'if scRef, err := p.getLeastBusySubConnRef(); err == nil && scRef != nil {', 'fallback selection can refuse/grow/lock (F1b)')
m('C08', B, 'if oldS == connectivity.Ready && s != oldS {', 'if oldS == connectivity.Ready && s == connectivity.TransientFailure {', 'stand-in purge condition weakened')
m('C08', B, '\t\t\tif gb.affinityMap[k] == sc {\n\t\t\t\tdelete(gb.fallbackMap, k)\n\t\t\t}', '\t\t\tif gb.affinityMap[k] == sc && false {\n\t\t\t\tdelete(gb.fallbackMap, k)\n\t\t\t}', 'no return home when the home channel recovers')
m('C08', B, '\t\t\t\t\t\tgb.fallbackMap[boundKey] = scRef.subConn\n', '\t\t\t\t\t\tgb.fallbackMap[boundKey] = scRef.subConn\n\t\t\t\t\t\tgb.affinityMap[boundKey] = scRef.subConn\n', 'fallback re-binds the key')
m('C08', B, 'if gb.cfg.GetChannelPool().GetFallbackToReady() {', 'if gb.cfg.GetChannelPool().GetFallbackToReady() || gb.cfg.GetChannelPool().GetMaxSize() > 1 {', 'fallback although disabled')
m('C08', B, '\t\tfor k, v := range gb.fallbackMap {\n\t\t\tif v == oldSc {\n\t\t\t\tgb.fallbackMap[k] = sc\n\t\t\t}\n\t\t}\n', '', 'refresh swap does not re-key fallbackMap')

# ---------------- C09
m('C09', P, 'if cmd == grpc_gcp.AffinityConfig_BIND && p.gb.cfg.GetChannelPool().GetBindPickStrategy() == grpc_gcp.ChannelPoolConfig_ROUND_ROBIN {', 'if p.gb.cfg.GetChannelPool().GetBindPickStrategy() == grpc_gcp.ChannelPoolConfig_ROUND_ROBIN {', 'round-robin applied to non-BIND calls')
m('C09', B, 'scRef := gb.scRefList[atomic.AddUint32(&gb.rrRefId, 1)%uint32(len(gb.scRefList))]', 'atomic.AddUint32(&gb.rrRefId, 1)\n\tscRef := gb.scRefList[atomic.AddUint32(&gb.rrRefId, 1)%uint32(len(gb.scRefList))]', 'cursor bumped twice')
m('C09', B, 'if state := gb.scStates[scRef.subConn]; state == connectivity.Ready {', 'if state := gb.scStates[scRef.subConn]; state == connectivity.Ready || state == connectivity.Connecting {', 'channel handed out before READY')
m('C09', B, '\t\tsigChan := scRef.stateSignal\n\t\tgb.mu.RUnlock()', '\t\tgb.mu.RUnlock()\n\t\tsigChan := scRef.stateSignal', 'signal read after unlock (lost wake-up)')
m('C09', B, 'gb.scRefList = append(gb.scRefList, gb.scRefs[sc])', 'gb.scRefList = append([]*subConnRef{gb.scRefs[sc]}, gb.scRefList...)', 'list prepended (creation order lost)')
m('C09', P, '\t\tscRef := p.gb.getSubConnRoundRobin(ctx)', '\t\tscRef := p.gb.getSubConnRoundRobin(ctx)\n\t\tscRef = p.scRefs[0]', 'cursor choice overridden')

m('C09', B, '\t\t\t\tmp[method] = affinityCfg\n', '\t\t\t\tmp[method] = affinityCfg\n\t\t\t\tbreak\n', 'only the first name of a method entry gets into the method table')
# ---------------- C10
m('C10', G, '\tgme.mu.RLock()\n\tdefer gme.mu.RUnlock()\n\tme, ook := gme.mes[name]', '\tme, ook := gme.mes[name]', 'pickConn without the lock (F15f)')
m('C10', M, '\tme.Lock()\n\tdefer me.Unlock()\n\teMap := make(map[string]*endpoint)', '\teMap := make(map[string]*endpoint)', 'constructor races with its timers (F19)')
m('C10', B, 'atomic.StoreUint32(&scRef.deCalls, 0)', 'scRef.deCalls = 0', 'plain store to an atomic counter')
m('C10', I, '\tif err := cs.initStreamErr; err != nil {\n\t\tcs.Unlock()\n\t\treturn err\n\t}', '\tif cs.initStreamErr != nil {\n\t\tcs.Unlock()\n\t\treturn cs.initStreamErr\n\t}', 'latch field read after unlock')
m('C10', B, 'func (gb *gcpBalancer) bindSubConn(bindKey string, sc balancer.SubConn) {\n\tgb.mu.Lock()\n\tdefer gb.mu.Unlock()', 'func (gb *gcpBalancer) bindSubConn(bindKey string, sc balancer.SubConn) {\n\tgb.mu.RLock()\n\tdefer gb.mu.RUnlock()', 'affinity map written under a read lock')
m('C10', M, 'func (me *multiEndpoint) Current() string {\n\tme.RLock()\n\tdefer me.RUnlock()', 'func (me *multiEndpoint) Current() string {', 'Current() reads without the lock')

# ---------------- C11
m('C11', P, 'if val.Kind() == reflect.Pointer || val.Kind() == reflect.Interface {', 'if val.Kind() != reflect.Struct {', 'Elem on arbitrary kinds')
m('C11', P, 'for i := 0; i < valField.Len(); i++ {', 'for i := 1; i < valField.Len(); i++ {', 'first element of a repeated field skipped')
m('C11', P, 'for i := 0; i < valField.Len(); i++ {', 'for i := 0; i <= valField.Len(); i++ {', 'index one past the end')
m('C11', P, '\t\treturn keysFromMessage(valField, path, start+1)', '\t\treturn keysFromMessage(valField, path, start+2)', 'path segment skipped')
m('C11', P, '\t\tkeys = append(keys, kk...)', '\t\tkeys = append(kk, keys...)', 'keys accumulated in reverse order')
m('C11', P, 'names := strings.Split(locator, ".")', 'names := strings.Split(locator, "/")', 'path split on the wrong separator')
m('C11', P, '\t\tif err != nil {\n\t\t\treturn keys, err\n\t\t}\n\t\tkeys = append(keys, kk...)', '\t\tif err != nil {\n\t\t\tcontinue\n\t\t}\n\t\tkeys = append(keys, kk...)', 'element errors swallowed')

# ---------------- C12
m('C12', I, '\t\t\tcs.initStreamErr = err\n\t\t\tcs.Unlock()\n\t\t\tcs.cond.Broadcast()\n\t\t\treturn err', '\t\t\tcs.initStreamErr = err\n\t\t\tcs.Unlock()\n\t\t\treturn err', 'no broadcast on the error path')
m('C12', I, '\tfor cs.initStreamErr == nil && cs.ClientStream == nil {\n\t\tif err := cs.ctx.Err(); err != nil {', '\tif cs.initStreamErr == nil && cs.ClientStream == nil {\n\t\tif err := cs.ctx.Err(); err != nil {', 'if instead of for around Wait')
m('C12', I, '\t\treqMsg:   req,\n\t\treplyMsg: reply,', '\t\treqMsg:   req,', 'reply object not handed to the picker')
m('C12', I, 'return invoker(ctx, method, req, reply, cc, opts...)', 'return invoker(ctx, method, req, reply, cc)', 'call options dropped')
m('C12', I, '&gcpContext{reqMsg: m}', '&gcpContext{}', 'first message not visible to the picker')
m('C12', I, '\tif cs.ClientStream == nil {\n\t\tctx := context.WithValue', '\tif cs.ClientStream == nil || cs.initStreamErr != nil {\n\t\tctx := context.WithValue', 'second stream after a success')

# ---------------- C13
m('C13', M, '\tme.setEndpointAvailability(e, avail)\n\tme.maybeUpdateCurrent()', '\tme.setEndpointAvailability(e, avail)\n\tif avail {\n\t\tme.maybeUpdateCurrent()\n\t}', 'mutator forgets to re-evaluate current')
m('C13', M, '\tif len(endpoints) == 0 {\n\t\treturn errors.New("endpoints list cannot be empty")\n\t}', '\tif endpoints == nil {\n\t\treturn errors.New("endpoints list cannot be empty")\n\t}', 'empty (non-nil) list accepted')
m('C13', M, 'if e.status == available && (topA == nil || topA.priority > e.priority) {', 'if e.status != unavailable && (topA == nil || topA.priority > e.priority) {', 'recovering endpoints count as available')
m('C13', M, 'if exists && c.status == recovering && (topA == nil || topA.priority > c.priority) {', 'if exists && c.status == recovering {', 'recovering endpoint kept although a better one is available')
m('C13', M, '\tif !exists {\n\t\tme.current = top.id\n\t}', '\tif !exists || c.status == unavailable {\n\t\tme.current = top.id\n\t}', 'fallback to first although current exists')
m('C13', M, '\t\tme.current = e.id\n\t})', '\t\tme.current = me.future\n\t})', 'stores the looked-up key instead of the id', 'silent')

m('C13', M, '\tif topA != nil {\n\t\tme.switchFromTo(c, topA)\n\t\treturn\n\t}', '\tif topA != nil && me.switchingDelay == 0 {\n\t\tme.switchFromTo(c, topA)\n\t\treturn\n\t}', 'switch to the top available endpoint only under a further, unrelated condition')
m('C13', M, '\tif !exists {\n\t\tme.current = top.id\n\t}', '\tif !exists && me.switchingDelay == 0 {\n\t\tme.current = top.id\n\t}', 'gone current replaced only under a further, unrelated condition')
m('C13', M, '\tif topA != nil {\n\t\tme.switchFromTo(c, topA)\n\t\treturn\n\t}', '\tif topA != nil {\n\t\tif me.switchingDelay == 0 {\n\t\t\tme.switchFromTo(c, topA)\n\t\t}\n\t\treturn\n\t}', 'the switch is skipped under an unrelated condition (and the function returns)')
m('C13', M, '\t\tif _, ok := newEndpoints[e]; !ok {', '\t\tif _, ok := newEndpoints[e]; !ok || e == endpoints[0] {', 'a surviving endpoint (the one listed first) is removed and re-created: its state is lost (seed C13-14)')
# ---------------- C14
m('C14', M, '\tif ee.status != available {\n\t\treturn\n\t}\n', '\tif ee.status == unavailable {\n\t\treturn\n\t}\n', 'repeated unavailable reports extend the recovery window')
m('C14', M, 'if me.switchingDelay == 0 || f == nil || f.status == unavailable {', 'if me.switchingDelay == 0 || f == nil || f.status != available {', 'immediate switch away from a recovering endpoint')
m('C14', M, '\tif avail {\n\t\tsetState(ee, available)\n\t\treturn\n\t}', '\tif avail {\n\t\tee.status = available\n\t\treturn\n\t}', 'status written directly (timer not stopped, no stamp)')
m('C14', M, '\tif e.futureChange != nil {\n\t\te.futureChange.Stop()\n\t}\n\te.status = s', '\te.status = s', 'pending timer not stopped')
m('C14', M, '\t\tif c, exists := me.endpoints[me.current]; exists && c.status != unavailable && c.priority < e.priority {\n\t\t\treturn\n\t\t}\n', '', 'delayed switch not re-validated (F16)')
m('C14', M, '\t\tif e.lastChange != stateChange {\n\t\t\t// This timer is outdated.\n\t\t\treturn\n\t\t}', '\t\tif e.lastChange != stateChange && e.status != recovering {\n\t\t\t// This timer is outdated.\n\t\t\treturn\n\t\t}', 'outdated recovery timer still fires')

# ---------------- C15
m('C15', G, '\tif !ok || !ook {', '\tif !ok && !ook {', 'default MultiEndpoint used under the wrong condition')
m('C15', G, '\t\tif _, ok := gme.pools[e]; !ok {', '\t\tif mc, ok := gme.pools[e]; !ok || mc.conn.GetState() == connectivity.Shutdown {', 'existing pool re-dialed')
m('C15', G, '\t\tif !mc.conn.WaitForStateChange(ctx, currentState) {', '\t\tif !mc.conn.WaitForStateChange(ctx, mc.conn.GetState()) {', 'monitor can miss a transition')
m('C15', G, '\t\t\tmc.stopMonitoring()\n\t\t\tdelete(gme.pools, e)', '\t\t\tdelete(gme.pools, e)', 'obsolete pool deleted without stopping its monitor')
m('C15', G, '\treturn gme.pickConn(ctx).Invoke(ctx, method, args, reply, opts...)', '\treturn gme.pickConn(context.Background()).Invoke(ctx, method, args, reply, opts...)', 'routing ignores the MultiEndpoint named in the context')
m('C15', G, '\t\ts := mc.conn.GetState()\n\t\tfor _, me := range gme.mes {', '\t\ts := mc.conn.GetState()\n\t\tif s != connectivity.Ready {\n\t\t\tcontinue\n\t\t}\n\t\tfor _, me := range gme.mes {', 'status sync skips non-READY pools')

m('C15', G, '\t// Remove obsolete MultiEndpoints.\n\tfor name := range gme.mes {', '\t// Remove obsolete MultiEndpoints.\n\tfor name := range gme.mes {\n\t\tif len(gme.mes) <= len(meOpts.MultiEndpoints) {\n\t\t\tbreak\n\t\t}', 'obsolete MultiEndpoints pruned only while there are more MultiEndpoints than options')
# ---------------- C16
m('C16', G, '\t\tif meo == nil || len(meo.Endpoints) == 0 {', '\t\tif meo == nil {', 'empty lists not rejected up front (F12b)')
m('C16', G, '\t\t// Release pools (and their monitors) that were created before the failure.\n\t\tgme.Close()\n', '', 'failed construction leaks pools (F12c)')
m('C16', G, '\tfor e, mc := range gme.pools {\n\t\tmc.stopMonitoring()\n\t\tif err := mc.conn.Close(); err != nil {', '\tfor e, mc := range gme.pools {\n\t\tif err := mc.conn.Close(); err != nil {', 'Close leaves monitors running')
m('C16', G, '\tgo mc.monitor(ctx)', '\tgo mc.monitor(ctx)\n\tgo mc.notify(connectivity.Idle)', 'extra goroutine nobody stops')
m('C16', G, '\t// Remove obsolete MultiEndpoints.', '\tif len(gme.mes) > 8 {\n\t\treturn fmt.Errorf("too many multiendpoints")\n\t}\n\t// Remove obsolete MultiEndpoints.', 'rejection after the MultiEndpoints were changed')

m('C16', 'grpcgcp/gcp_multiendpoint.go', 'if !mc.conn.WaitForStateChange(ctx, currentState) {', 'if !mc.conn.WaitForStateChange(ctx, currentState) && currentState != connectivity.Idle {', 'monitor keeps looping after its context ended on one path')
# ---------------- C17
m('C17', B, '\tmp := make(map[string]*pb.AffinityConfig)', '\tif cp.GetUnresponsiveCalls() == 0 {\n\t\tcp.UnresponsiveCalls = 3\n\t}\n\tmp := make(map[string]*pb.AffinityConfig)', 'a fourth field is defaulted')
m('C17', B, '\tdefaultMaxSize     = 4', '\tdefaultMaxSize     = 8', 'wrong default constant')
m('C17', B, '\tif gb.cfg == nil {\n\t\tcfg, ok', '\tif gb.cfg == nil || ccs.BalancerConfig != nil {\n\t\tcfg, ok', 'configuration re-initialised by later updates')
m('C17', G, '\treturn proto.Clone(gme.gcpConfig).(*pb.ApiConfig)', '\treturn gme.gcpConfig', 'GCPConfig hands out the internal object')
m('C17', B, '\terr := protojson.Unmarshal(j, c)', '\terr := protojson.UnmarshalOptions{DiscardUnknown: true}.Unmarshal(j, c)', 'unknown JSON fields accepted')
m('C17', B, '\t\t\t\tmp[method] = affinityCfg', '\t\t\t\tmp[method] = methodCfgs[0].GetAffinity()', 'method mapped to another entry\'s affinity')
m('C17', B, '\t\t\tApiConfig: proto.Clone(cfg.ApiConfig).(*pb.ApiConfig),', '\t\t\tApiConfig: cfg.ApiConfig,\n\t\t}\n\t\t_ = proto.Clone\n\t\tif false {\n\t\t\tgb.cfg = nil', 'defaults written into the caller\'s object')

m('C17', G, '\to := append([]grpc.DialOption{}, opts...)\n\to = append(o, []grpc.DialOption{\n\t\tgrpc.WithDisableServiceConfig(),\n\t\tgrpc.WithDefaultServiceConfig(fmt.Sprintf(`{"loadBalancingConfig": [{"%s":%s}]}`, Name, string(grpcGCPjsonConfig))),\n\t\tgrpc.WithChainUnaryInterceptor(GCPUnaryClientInterceptor),\n\t\tgrpc.WithChainStreamInterceptor(GCPStreamClientInterceptor),\n\t}...)\n', '\to := append([]grpc.DialOption{}, []grpc.DialOption{\n\t\tgrpc.WithDisableServiceConfig(),\n\t\tgrpc.WithDefaultServiceConfig(fmt.Sprintf(`{"loadBalancingConfig": [{"%s":%s}]}`, Name, string(grpcGCPjsonConfig))),\n\t\tgrpc.WithChainUnaryInterceptor(GCPUnaryClientInterceptor),\n\t\tgrpc.WithChainStreamInterceptor(GCPStreamClientInterceptor),\n\t}...)\n\to = append(o, opts...)\n', "the grpc-gcp options are placed in front of the caller's (seed C17-14)")
# ---------------- C18
m('C18', PR, '\tif backoff > max {\n\t\tbackoff = max\n\t}\n\treturn time.Duration(backoff)', '\treturn time.Duration(backoff)', 'backoff not clamped')
m('C18', PM, 'instanceDBRegex, err := regexp.Compile(`^[-_.a-zA-Z0-9]*$`)', 'instanceDBRegex, err := regexp.Compile(`^[-_./a-zA-Z0-9]*$`)', 'slash allowed in instance/database names')
m('C18', PM, 'instanceDBRegex, err := regexp.Compile(`^[-_.a-zA-Z0-9]*$`)', 'instanceDBRegex, err := regexp.Compile(`^[-_.a-zA-Z0-9]*`)', 'pattern not anchored at the end')
m('C18', PM, '\tif matched := instanceDBRegex.MatchString(*database_name); !matched {', '\tif matched := instanceDBRegex.MatchString(*instance_name); !matched {', 'database flag not validated')
m('C18', PR, '\tcase "noop":', '\tcase "noop", "":', 'empty probe type accepted')
m('C18', PR, '\t\tif _, err := h.Write(payload); err != nil {', '\t\tif _, err := h.Write(payload[:len(payload)/2]); err != nil {', 'hash of half the payload')
m('C18', PM, '!(*qps > 0 && *qps <= 1000) || !(interval >= 1 && interval < math.MaxInt64)', '*qps <= 0 || *qps > 1000 || interval > math.MaxInt64', 'NaN / tiny qps accepted (F18)')
m('C18', PI, '\tif len(headers[serverTimingKey]) > 0 {\n\t\tserverTiming = headers[serverTimingKey]\n\t} else if len(trailers[serverTimingKey]) > 0 {\n\t\tserverTiming = trailers[serverTimingKey]', '\tif len(trailers[serverTimingKey]) > 0 {\n\t\tserverTiming = trailers[serverTimingKey]\n\t} else if len(headers[serverTimingKey]) > 0 {\n\t\tserverTiming = headers[serverTimingKey]', 'trailer preferred over header')
m('C18', PI, '\t\t\treturn 0, fmt.Errorf("failed to parse gfe latency: %v", err)', '\t\t\tcontinue', 'a malformed gfet4t7 entry is skipped and the scan continues')
m('C18', PI, '\t\tdurationText := strings.TrimPrefix(entry, gfeT4T7prefix)', '\t\tdurationText := strings.TrimPrefix(serverTiming[0], gfeT4T7prefix)', 'the number parsed is not the tested entry\'s')
m('C18', PM, '\tif _, err := proberlib.ParseProbeType(*probeType); err != nil {', '\tif _, err := proberlib.ParseProbeType(*probeType); err != nil && *numRows > 1 {', 'probe type error reported only sometimes')
m('C18', PM, '\tif matched := instanceDBRegex.MatchString(*database_name); !matched {', '\tif matched := instanceDBRegex.MatchString(*database_name); !matched && *numRows > 1 {', 'failed database-name match reported only sometimes')
m('C18', PR, '\tcase "dml":\n\t\treturn DMLProbe{}, nil', '\tcase "dml":\n\t\tif rand.Intn(2) == 0 {\n\t\t\treturn nil, fmt.Errorf("busy")\n\t\t}\n\t\treturn DMLProbe{}, nil', 'a valid probe type is rejected under an unrelated condition')
m('C18', PR, '\t\treturn NoopProbe{}, fmt.Errorf("probe_type %q is not a valid probe type", t)', '\t\treturn NoopProbe{}, nil', 'unknown probe types parse as noop without error')
m('C18', PR, '\t\tif _, err := h.Write(payload); err != nil {\n\t\t\treturn nil, nil, err\n\t\t}', '\t\tif _, err := h.Write(payload); err != nil {\n\t\t\treturn nil, nil, err\n\t\t}\n\t\th.Write(payload)', 'payload written into the hash twice')

# ---------------- C19
m('C19', CS, '\tnewBytes := append(buffer.Bytes(), bytes...) // prepend', '\tnewBytes := append(bytes, buffer.Bytes()...)', 'checksum appended instead of prepended')
m('C19', CS, '\tchecksumField    = 2047', '\tchecksumField    = 2048', 'wrong field number')
m('C19', CS, 'crc32.MakeTable(crc32.Castagnoli)', 'crc32.MakeTable(crc32.IEEE)', 'CRC32 (IEEE) instead of CRC32C')
m('C19', CS, 'checksum := crc32.Checksum(bytes, crc32c)', 'checksum := crc32.Checksum(append([]byte{1}, bytes...), crc32c)', 'checksum over something else than the payload')
m('C19', CS, '\tif err != nil {\n\t\treturn bytes, err\n\t}\n\tcrc32c', '\tif err != nil && len(bytes) == 0 {\n\t\treturn bytes, err\n\t}\n\tcrc32c', 'wrapped codec error swallowed')

# ---------------- C20
m('C20', B, '\tfor sc := range gb.refreshingScRefs {\n\t\tsc.UpdateAddresses(addrs)\n\t\tsc.Connect()\n\t}', '\tfor _, ref := range gb.refreshingScRefs {\n\t\tref.subConn.UpdateAddresses(addrs)\n\t\tref.subConn.Connect()\n\t}', 'replacements reached through the registry value (the old slot): the old connection is pushed twice (seed C20-11)')
m('C20', B, '\tgb.addrs = addrs\n\tif gb.cfg == nil {', '\tif gb.cfg == nil {', 'address list not stored')
m('C20', B, '\t\tscRef.subConn.UpdateAddresses(addrs)\n\t\tscRef.subConn.Connect()', '\t\tif gb.scStates[scRef.subConn] == connectivity.Ready {\n\t\t\tcontinue\n\t\t}\n\t\tscRef.subConn.UpdateAddresses(addrs)\n\t\tscRef.subConn.Connect()', 'READY connections keep the old addresses')
m('C20', B, '\tfor sc := range gb.refreshingScRefs {\n\t\tsc.UpdateAddresses(addrs)\n\t\tsc.Connect()\n\t}\n', '', 'in-flight replacements keep the old addresses (F17)')
m('C20', B, '\tgb.log.Warningf("ResolverError: %v", err)', '\tgb.log.Warningf("ResolverError: %v", err)\n\tgb.mu.Lock()\n\tgb.addrs = nil\n\tgb.mu.Unlock()', 'resolver error clears the address list')

# ---------------- added after the independent seeded changes (wave 1)
m('C11', P, '\t\tkk, err := keysFromMessage(valField.Index(i), path, start+1)', '\t\tif el := valField.Index(i); el.Kind() == reflect.Pointer && el.IsNil() {\n\t\t\tcontinue\n\t\t}\n\t\tkk, err := keysFromMessage(valField.Index(i), path, start+1)', 'nil elements of a repeated field are skipped instead of being an error (seed C11-1)')
m('C14', M, 'exists && c.status != unavailable && c.priority < e.priority {', 'exists && c.status == available && c.priority < e.priority {', 'outdated delayed switch cuts a recovery window short (seed C14-1)')
m('C14', M, 'exists && c.status != unavailable && c.priority < e.priority {', 'exists && (c.status == available || c.status == recovering) && c.priority < e.priority {', 'delayed-switch guard spelled by enumeration', 'silent')
m('C14', M, 'exists && c.status != unavailable && c.priority < e.priority {', 'exists && c.priority < e.priority && !(c.status == unavailable) {', 'delayed-switch guard reordered', 'silent')
m('C13', M, '\tif ee.status != available {\n\t\treturn\n\t}\n', '\tif ee.status == recovering {\n\t\treturn\n\t}\n', 'an endpoint known to be unavailable re-enters recovering on a repeated report (seed C13-1)')
m('C13', M, '\t\tif e.lastChange != stateChange {\n\t\t\t// This timer is outdated.\n\t\t\treturn\n\t\t}', '\t\tif e.lastChange != stateChange && e.status != recovering {\n\t\t\t// This timer is outdated.\n\t\t\treturn\n\t\t}', 'outdated recovery timer marks a recovering endpoint unavailable')
m('C13', M, '\tif ee.status != available {\n\t\treturn\n\t}\n', '\tif ee.status == unavailable || ee.status == recovering {\n\t\treturn\n\t}\n', 'no-extend guard spelled by enumeration', 'silent')
m('C13', M, 'if exists && c.status == recovering && (topA == nil || topA.priority > c.priority) {', 'if exists && c.status != available && c.status != unavailable && (topA == nil || topA.priority > c.priority) {', 'keep-recovering guard spelled by exclusion', 'silent')
m('C13', M, 'if e.status == available && (topA == nil || topA.priority > e.priority) {', 'if !(e.status == unavailable || e.status == recovering) && (topA == nil || topA.priority > e.priority) {', 'availability test spelled by exclusion', 'silent')
m('C14', M, 'if me.switchingDelay == 0 || f == nil || f.status == unavailable {', 'if me.switchingDelay == 0 || f == nil || (f.status != available && f.status != recovering) {', 'immediate-switch guard spelled by exclusion', 'silent')
m('C17', B, '\t\t\tApiConfig: proto.Clone(cfg.ApiConfig).(*pb.ApiConfig),', '\t\t\tApiConfig: &pb.ApiConfig{ChannelPool: proto.Clone(cfg.GetChannelPool()).(*pb.ChannelPoolConfig), Method: cfg.GetMethod()},', 'only the channel-pool section is copied: method entries alias the caller (seed C17-1)')
m('C17', B, '\t\t\tApiConfig: proto.Clone(cfg.ApiConfig).(*pb.ApiConfig),', '\t\t\tApiConfig: &pb.ApiConfig{ChannelPool: proto.Clone(cfg.GetChannelPool()).(*pb.ChannelPoolConfig), Method: proto.Clone(cfg.ApiConfig).(*pb.ApiConfig).GetMethod()},', 'hand-built copy from clones only', 'silent')
m('C16', G, '\t// Add missing pools.\n\tfor e := range validPools {\n\t\tif _, ok := gme.pools[e]; !ok {\n\t\t\t// This creates a ClientConn with the gRPC-GCP balancer managing connection pool.\n\t\t\tconn, err := gme.dialFunc(context.Background(), e, gme.opts...)\n\t\t\tif err != nil {\n\t\t\t\treturn err\n\t\t\t}\n\t\t\tif gme.log.V(FINE) {\n\t\t\t\tgme.log.Infof("created new channel pool for %q endpoint.", e)\n\t\t\t}\n\t\t\tgme.pools[e] = newMonitoredConn(e, conn, gme)\n\t\t}\n\t}\n', '\t// Add missing pools.\n\tfresh := map[string]*monitoredConn{}\n\tfor e := range validPools {\n\t\tif _, ok := gme.pools[e]; !ok {\n\t\t\t// This creates a ClientConn with the gRPC-GCP balancer managing connection pool.\n\t\t\tconn, err := gme.dialFunc(context.Background(), e, gme.opts...)\n\t\t\tif err != nil {\n\t\t\t\treturn err\n\t\t\t}\n\t\t\tif gme.log.V(FINE) {\n\t\t\t\tgme.log.Infof("created new channel pool for %q endpoint.", e)\n\t\t\t}\n\t\t\tfresh[e] = newMonitoredConn(e, conn, gme)\n\t\t}\n\t}\n\tfor e, mc := range fresh {\n\t\tgme.pools[e] = mc\n\t}\n', 'dialed pools registered nowhere until every dial has succeeded (seed C16-1)')
m('C19', CS, '\tif err != nil {\n\t\treturn bytes, err\n\t}\n\tcrc32c', '\tif err != nil || len(bytes) == 0 {\n\t\treturn bytes, err\n\t}\n\tcrc32c', 'empty encodings are returned without the checksum field (seed C19-1)')

# ---------------- after the per-ref lock (fix d0a76b7)
m('C10', B, 'func (ref *subConnRef) gotResp() {\n\tref.mu.Lock()\n\tdefer ref.mu.Unlock()\n', 'func (ref *subConnRef) gotResp() {\n', 'gotResp writes lastResp/refreshCnt without the ref lock (F15b returns)')
m('C10', B, '\t\tscRef.mu.Lock()\n\t\tscRef.subConn = sc\n\t\tscRef.mu.Unlock()\n', '\t\tscRef.subConn = sc\n', 'swap writes subConn holding only gb.mu (F15a returns)')
m('C10', P, 'return balancer.PickResult{SubConn: scRef.getSubConn(), Done: callback}, nil', 'return balancer.PickResult{SubConn: scRef.subConn, Done: callback}, nil', 'Pick reads subConn with no lock (F15a returns)')
m('C10', B, 'func (ref *subConnRef) getLastResp() time.Time {\n\tref.mu.RLock()\n\tdefer ref.mu.RUnlock()\n', 'func (ref *subConnRef) getLastResp() time.Time {\n', 'getter without the lock')
m('C07', P, '\tif scRef.deCallsInc() >= p.gb.cfg.GetChannelPool().GetUnresponsiveCalls() &&\n\t\tscRef.getLastResp().Before(', '\tlr := scRef.getLastResp()\n\tif scRef.deCallsInc() >= p.gb.cfg.GetChannelPool().GetUnresponsiveCalls() &&\n\t\tlr.Before(', 'last-response time read into a local first', 'silent')
m('C19', CS, '\tlog.Printf("Marshalled bytes: %+v\\n", bytes)', '\tlog.Printf("Marshalled bytes: %+v\\n", append(bytes[:0], bytes...))', 'payload used as an append destination (in-place rewrite of the wrapped encoding)')
m('C07', B, 'gb.unresponsiveDetection = cp.GetUnresponsiveCalls() > 0 && cp.GetUnresponsiveDetectionMs() > 0', 'gb.unresponsiveDetection = !(cp.GetUnresponsiveCalls() == 0 && cp.GetUnresponsiveDetectionMs() == 0)', 'detection enabled with only one threshold configured (seed C07 wave 2)')
m('C07', B, 'gb.unresponsiveDetection = cp.GetUnresponsiveCalls() > 0 && cp.GetUnresponsiveDetectionMs() > 0', 'gb.unresponsiveDetection = !(cp.GetUnresponsiveCalls() == 0 || cp.GetUnresponsiveDetectionMs() < 1)', 'enable condition by De Morgan', 'silent')

# ---------------- after the RecvMsg context fix (42c1430)
m('C12', I, '\t\tif err := cs.ctx.Err(); err != nil {\n\t\t\tcs.Unlock()\n\t\t\treturn status.FromContextError(err).Err()\n\t\t}\n', '\t\tif err := cs.ctx.Err(); err != nil && false {\n\t\t\tcs.Unlock()\n\t\t\treturn status.FromContextError(err).Err()\n\t\t}\n', 'wait loop no longer leaves when the context is done (F13 returns)')
m('C12', I, '\t\t\t\tcase <-cs.ctx.Done():\n\t\t\t\t\tcs.Lock()\n\t\t\t\t\tcs.cond.Broadcast()\n\t\t\t\t\tcs.Unlock()\n', '\t\t\t\tcase <-cs.ctx.Done():\n', 'waker goroutine does not wake the waiter')
m('C12', I, '\t\t\t\tcase <-cs.ctx.Done():\n\t\t\t\t\tcs.Lock()\n\t\t\t\t\tcs.cond.Broadcast()\n\t\t\t\t\tcs.Unlock()\n', '\t\t\t\tcase <-cs.ctx.Done():\n\t\t\t\t\tcs.cond.Broadcast()\n', 'waker broadcasts without the lock (wake-up can be lost between the test and the wait)')

json.dump(T, open('/verif/checker/mutants.json', 'w'), indent=0)
print(len(T), 'mutants')
