#!/bin/bash
# try_seed.sh <prop> <patch.diff> <demo_test.go> <pkgdir-relative-to-repo> [race]
# 1. confirms the seeded change in a fresh scratch worktree (demo fails with the change, passes without);
# 2. applies the patch to /repo's working tree, runs the property's quick check, restores /repo.
set -u
prop=$1; patch=$2; demo=$3; pkg=$4; race=${5:-}
export GOFLAGS=-mod=mod GOPROXY=off GOSUMDB=off GOTOOLCHAIN=local
W=/tmp/confirm_$$
git -C /repo worktree add -q $W HEAD || exit 2
cp "$demo" $W/$pkg/zz_seed_demo_test.go
flags="-count=1 -vet=off"; [ -n "$race" ] && flags="$flags -race"
echo "== without change:"; (cd $W/$pkg && go test $flags -run 'TestZZSeedDemo' . 2>&1 | tail -3)
git -C $W apply "$patch" || { echo "patch does not apply"; git -C /repo worktree remove --force $W; exit 2; }
echo "== with change:"; (cd $W/$pkg && go test $flags -run 'TestZZSeedDemo' . 2>&1 | grep -E "^(--- FAIL|FAIL|ok|panic:|WARNING: DATA RACE|fatal error)" | sort | uniq -c | head -5)
echo "== builds + unit tests (. ./multiendpoint) with change:"; (cd $W/grpcgcp && go build ./... && go test -count=1 -vet=off -run 'Test[^Z]' . ./multiendpoint 2>&1 | tail -2)
git -C /repo worktree remove --force $W
echo "== checker on /repo with the patch applied:"
cd /repo && git diff --quiet || { echo "/repo dirty"; exit 2; }
git apply "$patch" && (cd /verif && mkdir -p /tmp/verif-scratch && cp KNOWN_FINDINGS.txt /tmp/verif-scratch/ && ./bin/verifcheck -property $prop -verif /tmp/verif-scratch | grep -E "^(VIOLATION|  rule=|C[0-9]+ )" | cut -c1-260)
git checkout -- .
