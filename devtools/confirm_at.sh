#!/bin/bash
# confirm_at.sh <prop> <pkgdir> <moddir> [race] — like confirm_w3.sh, but touches neither /repo's working tree nor /verif/bin:
# confirms patch.diff/patch2.diff of /tmp/seed/<prop> with demoN_test.go.txt in a fresh scratch worktree (demo passes without,
# fails with; build + existing tests of the module with the change), then runs the property's check with
# devtools/try_at.sh /tmp/verifcheck_new /tmp/dev.
prop=$1; pkg=$2; mod=$3; race=${4:-}
export GOFLAGS=-mod=mod GOPROXY=off GOSUMDB=off GOTOOLCHAIN=local
S=/tmp/seed/$prop
for n in 1 2; do
  pf=$S/patch$([ $n = 1 ] && echo "" || echo $n).diff; df=$S/demo${n}_test.go.txt
  [ -f $pf ] && [ -f $df ] || continue
  echo "#### $prop change $n"
  W=/tmp/confirm_$$_$n
  git -C /repo worktree add -q --detach $W HEAD || exit 2
  cp $df $W/$pkg/zz_seed_demo_test.go
  flags="-count=1 -vet=off"; [ -n "$race" ] && flags="$flags -race"
  echo -n "without: "; (cd $W/$pkg && go test $flags -run 'TestZZSeedDemo' . 2>&1 | tail -1)
  git -C $W apply $pf || echo "PATCH DOES NOT APPLY"
  echo "with:"; (cd $W/$pkg && go test $flags -run 'TestZZSeedDemo' . 2>&1 | grep -E "^(--- FAIL|FAIL|ok|panic:|WARNING: DATA RACE|fatal error)" | sort | uniq -c | head -4)
  echo -n "build+tests: "; (cd $W/$mod && go build ./... && go test -count=1 -vet=off -run 'Test[^Z]' ./... 2>&1 | grep -vE "no test files|test_grpc" | tail -3 | tr '\n' ' '); echo
  git -C /repo worktree remove --force $W
  /verif/devtools/try_at.sh /tmp/verifcheck_new /tmp/dev $pf $prop 2>&1 | cut -c1-260 | head -8
done
