#!/bin/bash
# try_at.sh <checker binary> <scratch worktree of /repo> <patch> [props...] — like try_refactor.sh / the seed runs, but against a
# scratch worktree (git -C /repo worktree add --detach <dir> HEAD) and a given checker binary, so that it can run while
# something else uses /repo's working tree and /verif/bin. Prints every alarm; exit 1 if any.
bin=$1; wt=$2; patch=$3; shift 3
props=${@:-C01 C02 C03 C04 C05 C06 C07 C08 C09 C10 C11 C12 C13 C14 C15 C16 C17 C18 C19 C20}
cd $wt && git diff --quiet || { echo "$wt dirty"; exit 2; }
git apply "$patch" || { echo "patch does not apply: $patch"; exit 2; }
scratch=$wt-scratch; mkdir -p $scratch && cp /verif/KNOWN_FINDINGS.txt $scratch/
bad=0
for p in $props; do
  out=$($bin -repo $wt -verif $scratch -property $p)
  rc=$?
  if [ $rc -ne 0 ] && ! echo "$out" | grep -q "^VIOLATION"; then
    bad=1; echo "CRASH $p (exit $rc) on $(basename $patch):"; echo "$out" | head -5 | cut -c1-300
  fi
  if echo "$out" | grep -q "^VIOLATION"; then
    bad=1; echo "ALARM $p on $patch:"; echo "$out" | grep -E "^  rule=" -A1 | cut -c1-400 | head -12
  fi
done
git checkout -q -- .
[ $bad = 0 ] && echo "silent: $patch"
exit $bad
