#!/bin/bash
# dbg_refactor.sh <refactor-id> <prop...> — development: apply the refactoring, materialise the inlined (normalised) copy into
# /repo's working tree, run the given checks on it, print the failures, restore /repo. The materialised files stay in /tmp/inl/.
id=$1; shift
cd /repo && git diff --quiet || { echo dirty; exit 2; }
git apply /verif/refactors/$id/patch.diff || exit 2
rm -rf /tmp/inl; mkdir -p /tmp/inl
/verif/bin/verifcheck -dump inlined 2>/dev/null > /tmp/inl/all.txt
head -1 /tmp/inl/all.txt | cut -c1-600
python3 - <<'PY'
import re
t=open('/tmp/inl/all.txt').read()
parts=re.split(r'^===== (.*)$', t, flags=re.M)
for i in range(1,len(parts),2):
    path=parts[i].strip(); body=parts[i+1].lstrip('\n')
    open(path,'w').write(body)
    open('/tmp/inl/'+path.replace('/','_'),'w').write(body)
    print('materialised',path)
PY
mkdir -p /tmp/verif-scratch && cp /verif/KNOWN_FINDINGS.txt /tmp/verif-scratch/
for p in "$@"; do /verif/bin/verifcheck -property $p -verif /tmp/verif-scratch | grep -E "rule=|quick:" -A1 | grep -v "^--" | cut -c1-600; done
git checkout -- .
