#!/bin/bash
# usage: with_revert.sh <commit> <property> [tier]   — reverse-applies a fix commit to /repo's working tree,
# runs the check, restores the tree. Development-time sensitivity test ("the rule fires when the defect returns").
set -u
c=$1; prop=$2; tier=${3:-quick}
cd /repo || exit 2
if ! git diff --quiet; then echo "/repo dirty"; exit 2; fi
git show "$c" | git apply -R || { echo "cannot revert $c"; exit 2; }
mkdir -p /tmp/verif-scratch && cp /verif/KNOWN_FINDINGS.txt /tmp/verif-scratch/
/verif/bin/verifcheck -property "$prop" -tier "$tier" -verif /tmp/verif-scratch | grep -E "^(VIOLATION|  rule=|KNOWN|C[0-9]+ )"
git checkout -- .
