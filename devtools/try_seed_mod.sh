#!/bin/bash
# try_seed_mod.sh <prop> <patch.diff> <demo_test.go> <pkgdir-relative-to-repo> <module-dir-relative-to-repo>
# Like try_seed.sh for modules other than grpcgcp: the module's own tests are run with and without the change.
set -u
prop=$1; patch=$2; demo=$3; pkg=$4; mod=$5
export GOFLAGS=-mod=mod GOPROXY=off GOSUMDB=off GOTOOLCHAIN=local
W=/tmp/confirm_$$
git -C /repo worktree add -q $W HEAD || exit 2
[ -f /repo/$mod/go.sum ] && cp /repo/$mod/go.sum $W/$mod/ 2>/dev/null
cp "$demo" $W/$pkg/zz_seed_demo_test.go
flags="-count=1 -vet=off"
echo "== without change:"; (cd $W/$pkg && go test $flags -run 'TestZZSeedDemo' . 2>&1 | tail -3)
echo "== module tests without change:"; (cd $W/$mod && go test $flags -run 'Test[^Z]' ./... 2>&1 | grep -E "^(--- FAIL|FAIL|ok)" | head)
git -C $W apply "$patch" || { echo "patch does not apply"; git -C /repo worktree remove --force $W; exit 2; }
echo "== with change:"; (cd $W/$pkg && go test $flags -run 'TestZZSeedDemo' . 2>&1 | grep -E "^(--- FAIL|FAIL|ok|panic:)" | sort | uniq -c | head -8)
echo "== module builds + tests with change:"; (cd $W/$mod && go build -o /dev/null ./... && go test $flags -run 'Test[^Z]' ./... 2>&1 | grep -E "^(--- FAIL|FAIL|ok)" | head)
git -C /repo worktree remove --force $W
echo "== checker on /repo with the patch applied:"
cd /repo && git diff --quiet || { echo "/repo dirty"; exit 2; }
git apply "$patch" && (cd /verif && mkdir -p /tmp/verif-scratch && cp KNOWN_FINDINGS.txt /tmp/verif-scratch/ && ./bin/verifcheck -property $prop -verif /tmp/verif-scratch | grep -E "^(VIOLATION|  rule=|C[0-9]+ )" | cut -c1-260)
git checkout -- .
