#!/bin/bash
# ./check.sh <property-id> [quick|thorough]   — decide one property on /repo's current working tree.
# ./check.sh --replay <file>                  — print a replay file and re-run its property.
# ./check.sh --setup                          — (re)build the checker from /verif/checker.
# Static analysis only: nothing of /repo is executed. Exit 0 = held (KNOWN-FINDING lines allowed),
# exit 1 = VIOLATION lines printed (or the checker could not decide: fail closed).
set -u
cd "$(dirname "$0")"
export GOFLAGS=-mod=mod GOPROXY=off GOSUMDB=off GOTOOLCHAIN=local CGO_ENABLED=0
unset GOWORK
BIN=./bin/verifcheck
build() {
  mkdir -p bin
  (cd checker && go build -o ../bin/verifcheck .) || { echo "VIOLATION property=${1:-setup} replay=/verif/checker (checker does not build)"; exit 1; }
}
needs_build() {
  [ ! -x "$BIN" ] && return 0
  [ -n "$(find checker -newer "$BIN" \( -name '*.go' -o -name 'go.mod' -o -name 'go.sum' -o -name 'mutants.json' -o -name 'known_funcs.txt' \) -print -quit)" ] && return 0
  return 1
}
case "${1:-}" in
  --setup) build setup; exit 0;;
  --replay)
    f=${2:?replay file}; cat "$f"; id=$(basename "$f" | sed 's/-.*//'); shift 2; set -- "$id" "${VERIF_TIER:-quick}";;
esac
id=${1:?property id}; tier=${2:-${VERIF_TIER:-quick}}
if needs_build; then build "$id"; fi
log=$(mktemp)
"$BIN" -property "$id" -tier "$tier" -repo "${VERIF_REPO:-/repo}" -verif "$(pwd)" 2>&1 | tee "$log"
rc=${PIPESTATUS[0]}
if [ "$rc" -ne 0 ] && ! grep -q '^VIOLATION' "$log"; then
  # the checker died (fatal runtime error, killed): fail closed, in the interface's terms
  echo "VIOLATION property=$id replay=/verif/check.sh (checker exited with status $rc without a verdict)"
fi
rm -f "$log"
[ "$rc" -eq 0 ] && exit 0
exit 1
