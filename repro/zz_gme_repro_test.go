// Development-time reproducers for the GCPMultiEndpoint defects repaired by "fix:"
// commits (see /verif/KNOWN_FINDINGS.txt). NOT part of any registered check.
// Copy into a scratch worktree's grpcgcp/ directory; run
// `go test -race -run ZZGME -count=1 .` there.
package grpcgcp

import (
	"context"
	"errors"
	"runtime"
	"sync"
	"testing"
	"time"

	"github.com/GoogleCloudPlatform/grpc-gcp-go/grpcgcp/multiendpoint"
	"google.golang.org/grpc"
	"google.golang.org/grpc/credentials/insecure"

	pb "github.com/GoogleCloudPlatform/grpc-gcp-go/grpcgcp/grpc_gcp"
)

func zzDial(failOn string) func(ctx context.Context, target string, dopts ...grpc.DialOption) (*grpc.ClientConn, error) {
	return func(ctx context.Context, target string, dopts ...grpc.DialOption) (*grpc.ClientConn, error) {
		if target == failOn {
			return nil, errors.New("dial failure")
		}
		return grpc.Dial(target, grpc.WithTransportCredentials(insecure.NewCredentials()))
	}
}

func zzOpts(m map[string][]string, def string, dial string) *GCPMultiEndpointOptions {
	o := &GCPMultiEndpointOptions{
		GRPCgcpConfig:  &pb.ApiConfig{},
		MultiEndpoints: map[string]*multiendpoint.MultiEndpointOptions{},
		Default:        def,
		DialFunc:       zzDial(dial),
	}
	for k, v := range m {
		o.MultiEndpoints[k] = &multiendpoint.MultiEndpointOptions{Endpoints: v}
	}
	return o
}

// F12b: an empty list for an existing MultiEndpoint must be rejected and change nothing.
func TestZZGME_F12b_EmptyListRejected(t *testing.T) {
	gme, err := NewGCPMultiEndpoint(zzOpts(map[string][]string{"default": {"localhost:1"}}, "default", ""))
	if err != nil {
		t.Fatal(err)
	}
	defer gme.Close()
	err = gme.UpdateMultiEndpoints(zzOpts(map[string][]string{"default": {}}, "default", ""))
	if err == nil {
		t.Errorf("empty endpoint list accepted")
	}
	if c := gme.pickConn(context.Background()); c == nil {
		t.Errorf("no conn after rejected update")
	}
}

// F12c: a failed construction leaves no goroutine behind.
func TestZZGME_F12c_FailedCtorLeaksNothing(t *testing.T) {
	time.Sleep(100 * time.Millisecond)
	before := runtime.NumGoroutine()
	for i := 0; i < 20; i++ {
		// map order is random: with two endpoints the failing one is dialed second ~half the time.
		_, err := NewGCPMultiEndpoint(zzOpts(map[string][]string{"default": {"localhost:1", "localhost:2"}}, "default", "localhost:2"))
		if err == nil {
			t.Fatal("expected dial failure")
		}
	}
	deadline := time.Now().Add(3 * time.Second)
	for time.Now().Before(deadline) && runtime.NumGoroutine() > before+2 {
		time.Sleep(50 * time.Millisecond)
	}
	if n := runtime.NumGoroutine(); n > before+2 {
		t.Errorf("goroutines leaked: before=%d after=%d", before, n)
	}
}

// F15f: RPC routing concurrent with UpdateMultiEndpoints (run with -race).
func TestZZGME_F15f_PickConnRace(t *testing.T) {
	gme, err := NewGCPMultiEndpoint(zzOpts(map[string][]string{"default": {"localhost:1"}}, "default", ""))
	if err != nil {
		t.Fatal(err)
	}
	var wg sync.WaitGroup
	stop := make(chan struct{})
	wg.Add(1)
	go func() {
		defer wg.Done()
		for {
			select {
			case <-stop:
				return
			default:
				gme.pickConn(NewMEContext(context.Background(), "other"))
			}
		}
	}()
	for i := 0; i < 50; i++ {
		m := map[string][]string{"default": {"localhost:1"}}
		if i%2 == 0 {
			m["other"] = []string{"localhost:2", "localhost:1"}
		}
		if err := gme.UpdateMultiEndpoints(zzOpts(m, "default", "")); err != nil {
			t.Fatal(err)
		}
	}
	close(stop)
	wg.Wait()
	gme.Close()
}
