package grpcgcp

import "testing"

type zzInner struct{ Name string }
type zzOuter struct{ *zzInner }

// F8: a message whose embedded pointer is nil: FieldByName("Name") walks through the nil embedded pointer and panics.
func TestZZ_F8_NilEmbeddedPointer(t *testing.T) {
	defer func() {
		if r := recover(); r != nil {
			t.Errorf("key extraction panicked: %v", r)
		}
	}()
	if _, err := getAffinityKeysFromMessage("name", zzOuter{}); err == nil {
		t.Errorf("expected an error")
	}
}
