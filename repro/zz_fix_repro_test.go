// Development-time reproducers for the genuine defects repaired by "fix:" commits
// in /repo (see /verif/KNOWN_FINDINGS.txt). NOT part of any registered check: the
// checks are static. Copy into a scratch worktree's grpcgcp/ directory and run
// `go test -run ZZ -count=1 .` there; each test fails (hangs → timeout, or panics)
// on the unrepaired tree and passes on the repaired one.
package grpcgcp

import (
	"context"
	"errors"
	"sync"
	"testing"
	"time"

	"google.golang.org/grpc/balancer"
	"google.golang.org/grpc/codes"
	"google.golang.org/grpc/connectivity"
	"google.golang.org/grpc/resolver"
	"google.golang.org/grpc/status"

	pb "github.com/GoogleCloudPlatform/grpc-gcp-go/grpcgcp/grpc_gcp"
)

type zzSC struct {
	id    int
	mu    sync.Mutex
	addrs []resolver.Address
	conns int
}

func (s *zzSC) UpdateAddresses(a []resolver.Address) { s.mu.Lock(); s.addrs = a; s.mu.Unlock() }
func (s *zzSC) Connect()                             { s.mu.Lock(); s.conns++; s.mu.Unlock() }
func (s *zzSC) GetOrBuildProducer(balancer.ProducerBuilder) (balancer.Producer, func()) {
	return nil, func() {}
}

type zzCC struct {
	mu      sync.Mutex
	n       int
	fail    bool
	created []*zzSC
	removed []balancer.SubConn
	states  []balancer.State
}

func (c *zzCC) NewSubConn(a []resolver.Address, _ balancer.NewSubConnOptions) (balancer.SubConn, error) {
	c.mu.Lock()
	defer c.mu.Unlock()
	if c.fail {
		return nil, errors.New("factory failure")
	}
	c.n++
	sc := &zzSC{id: c.n, addrs: a}
	c.created = append(c.created, sc)
	return sc, nil
}
func (c *zzCC) RemoveSubConn(sc balancer.SubConn) {
	c.mu.Lock()
	c.removed = append(c.removed, sc)
	c.mu.Unlock()
}
func (c *zzCC) UpdateAddresses(balancer.SubConn, []resolver.Address) {}
func (c *zzCC) UpdateState(s balancer.State) {
	c.mu.Lock()
	c.states = append(c.states, s)
	c.mu.Unlock()
}
func (c *zzCC) ResolveNow(resolver.ResolveNowOptions) {}
func (c *zzCC) Target() string                        { return "zz" }

func (c *zzCC) picker() balancer.Picker {
	c.mu.Lock()
	defer c.mu.Unlock()
	return c.states[len(c.states)-1].Picker
}

func zzWithin(t *testing.T, d time.Duration, what string, f func()) {
	t.Helper()
	done := make(chan struct{})
	go func() { defer close(done); f() }()
	select {
	case <-done:
	case <-time.After(d):
		t.Fatalf("%s did not return within %v (deadlock/spin)", what, d)
	}
}

type zzReq struct{ Key string }
type zzRes struct{ Key string }
type zzReqList struct{ Keys []string }

func zzConfig(cp *pb.ChannelPoolConfig) *GCPBalancerConfig {
	return &GCPBalancerConfig{ApiConfig: &pb.ApiConfig{
		ChannelPool: cp,
		Method: []*pb.MethodConfig{
			{Name: []string{"bind"}, Affinity: &pb.AffinityConfig{Command: pb.AffinityConfig_BIND, AffinityKey: "key"}},
			{Name: []string{"bound"}, Affinity: &pb.AffinityConfig{Command: pb.AffinityConfig_BOUND, AffinityKey: "key"}},
			{Name: []string{"unbind"}, Affinity: &pb.AffinityConfig{Command: pb.AffinityConfig_UNBIND, AffinityKey: "key"}},
			{Name: []string{"boundlist"}, Affinity: &pb.AffinityConfig{Command: pb.AffinityConfig_BOUND, AffinityKey: "keys"}},
		},
	}}
}

func zzBalancer(cc *zzCC, cp *pb.ChannelPoolConfig) *gcpBalancer {
	b := newBuilder().Build(cc, balancer.BuildOptions{}).(*gcpBalancer)
	b.UpdateClientConnState(balancer.ClientConnState{
		ResolverState:  resolver.State{Addresses: []resolver.Address{{Addr: "a1"}}},
		BalancerConfig: zzConfig(cp),
	})
	return b
}

func zzCtx(req, reply interface{}) context.Context {
	return context.WithValue(context.Background(), gcpKey, &gcpContext{reqMsg: req, replyMsg: reply})
}

func zzReady(b *gcpBalancer, sc balancer.SubConn) {
	b.UpdateSubConnState(sc, balancer.SubConnState{ConnectivityState: connectivity.Connecting})
	b.UpdateSubConnState(sc, balancer.SubConnState{ConnectivityState: connectivity.Ready})
}

// F1c: first resolver update with a failing connection factory must return.
func TestZZ_F1c_FailingFactoryDoesNotSpin(t *testing.T) {
	cc := &zzCC{fail: true}
	zzWithin(t, 2*time.Second, "UpdateClientConnState", func() { zzBalancer(cc, &pb.ChannelPoolConfig{MinSize: 2}) })
}

// F1a: resolver update on an emptied pool must not self-deadlock.
func TestZZ_F1a_UpdateOnEmptiedPool(t *testing.T) {
	cc := &zzCC{}
	b := zzBalancer(cc, &pb.ChannelPoolConfig{MinSize: 1})
	sc := cc.created[0]
	zzReady(b, sc)
	b.UpdateSubConnState(sc, balancer.SubConnState{ConnectivityState: connectivity.Shutdown})
	zzWithin(t, 2*time.Second, "UpdateClientConnState on emptied pool", func() {
		b.UpdateClientConnState(balancer.ClientConnState{ResolverState: resolver.State{Addresses: []resolver.Address{{Addr: "a2"}}}})
	})
	if len(cc.created) != 2 {
		t.Fatalf("pool not re-created: %d connections created", len(cc.created))
	}
}

// F1b/F4a/F4b: fallback when every READY channel is at the watermark, on stale pickers.
func TestZZ_F1b_FallbackSaturated(t *testing.T) {
	cc := &zzCC{}
	b := zzBalancer(cc, &pb.ChannelPoolConfig{MinSize: 2, MaxSize: 4, MaxConcurrentStreamsLowWatermark: 1, FallbackToReady: true})
	home, other := cc.created[0], cc.created[1]
	zzReady(b, home)
	zzReady(b, other)
	b.bindSubConn("k", home)
	b.UpdateSubConnState(home, balancer.SubConnState{ConnectivityState: connectivity.TransientFailure})
	p := cc.picker()
	// saturate "other"
	b.scRefs[other].streamsIncr()
	zzWithin(t, 2*time.Second, "BOUND pick with saturated stand-ins", func() {
		res, err := p.Pick(balancer.PickInfo{FullMethodName: "bound", Ctx: zzCtx(&zzReq{Key: "k"}, nil)})
		if err != nil || res.SubConn != other {
			t.Errorf("want stand-in %p, got %v, %v", other, res.SubConn, err)
		}
	})
}

func TestZZ_F4_FallbackOnStalePicker(t *testing.T) {
	cc := &zzCC{}
	b := zzBalancer(cc, &pb.ChannelPoolConfig{MinSize: 2, FallbackToReady: true})
	home, other := cc.created[0], cc.created[1]
	zzReady(b, home)
	zzReady(b, other)
	b.bindSubConn("k", home)
	stale := cc.picker()
	// F4b: current picker has no READY slot (aggregate CONNECTING).
	b.UpdateSubConnState(home, balancer.SubConnState{ConnectivityState: connectivity.Connecting})
	b.UpdateSubConnState(other, balancer.SubConnState{ConnectivityState: connectivity.Connecting})
	if _, err := stale.Pick(balancer.PickInfo{FullMethodName: "bound", Ctx: zzCtx(&zzReq{Key: "k"}, nil)}); err == nil {
		t.Errorf("expected no SubConn available")
	}
	// F4a: all in TRANSIENT_FAILURE → current picker is an errPicker.
	b.UpdateSubConnState(home, balancer.SubConnState{ConnectivityState: connectivity.TransientFailure})
	b.UpdateSubConnState(other, balancer.SubConnState{ConnectivityState: connectivity.TransientFailure})
	if _, err := stale.Pick(balancer.PickInfo{FullMethodName: "bound", Ctx: zzCtx(&zzReq{Key: "k"}, nil)}); err == nil {
		t.Errorf("expected no SubConn available")
	}
}

func zzRefresh(t *testing.T, cc *zzCC, b *gcpBalancer, old *zzSC) *zzSC {
	t.Helper()
	n := len(cc.created)
	b.refresh(b.scRefs[old])
	if len(cc.created) != n+1 {
		t.Fatalf("refresh created %d connections", len(cc.created)-n)
	}
	return cc.created[n]
}

// F2: a bound key follows its channel across a refresh.
func TestZZ_F2_AffinitySurvivesRefresh(t *testing.T) {
	cc := &zzCC{}
	b := zzBalancer(cc, &pb.ChannelPoolConfig{MinSize: 2})
	home, other := cc.created[0], cc.created[1]
	zzReady(b, home)
	zzReady(b, other)
	b.bindSubConn("k", home)
	fresh := zzRefresh(t, cc, b, home)
	b.UpdateSubConnState(fresh, balancer.SubConnState{ConnectivityState: connectivity.Ready})
	p := cc.picker()
	res, err := p.Pick(balancer.PickInfo{FullMethodName: "bound", Ctx: zzCtx(&zzReq{Key: "k"}, nil)})
	if err != nil || res.SubConn != fresh {
		t.Fatalf("BOUND after refresh: want %p got %v, %v", fresh, res.SubConn, err)
	}
}

// F3: UNBIND/BIND completing after the connection went away must not panic.
func TestZZ_F3_BindUnbindAfterShutdown(t *testing.T) {
	cc := &zzCC{}
	b := zzBalancer(cc, &pb.ChannelPoolConfig{MinSize: 1})
	sc := cc.created[0]
	zzReady(b, sc)
	b.bindSubConn("k", sc)
	b.UpdateSubConnState(sc, balancer.SubConnState{ConnectivityState: connectivity.Shutdown})
	b.unbindSubConn("k")
	b.bindSubConn("k2", sc)
}

// F5: a failed replacement creation must not disable later refreshes.
func TestZZ_F5_RefreshRetriesAfterFailure(t *testing.T) {
	cc := &zzCC{}
	b := zzBalancer(cc, &pb.ChannelPoolConfig{MinSize: 1})
	sc := cc.created[0]
	zzReady(b, sc)
	cc.fail = true
	b.refresh(b.scRefs[sc])
	cc.fail = false
	b.refresh(b.scRefs[sc])
	if len(cc.created) != 2 {
		t.Fatalf("second refresh attempt created no replacement")
	}
}

// F6: BOUND call whose key path resolves to an empty list.
func TestZZ_F6_EmptyKeyList(t *testing.T) {
	cc := &zzCC{}
	b := zzBalancer(cc, &pb.ChannelPoolConfig{MinSize: 1})
	zzReady(b, cc.created[0])
	p := cc.picker()
	p.Pick(balancer.PickInfo{FullMethodName: "boundlist", Ctx: zzCtx(&zzReqList{}, nil)})
}

// F7: BIND completion without interceptor context.
func TestZZ_F7_BindWithoutContext(t *testing.T) {
	cc := &zzCC{}
	b := zzBalancer(cc, &pb.ChannelPoolConfig{MinSize: 1})
	zzReady(b, cc.created[0])
	p := cc.picker()
	res, err := p.Pick(balancer.PickInfo{FullMethodName: "bind", Ctx: context.Background()})
	if err != nil {
		t.Fatal(err)
	}
	res.Done(balancer.DoneInfo{})
}

// F17: resolver update during a refresh reaches the replacement.
func TestZZ_F17_AddressesReachReplacement(t *testing.T) {
	cc := &zzCC{}
	b := zzBalancer(cc, &pb.ChannelPoolConfig{MinSize: 1})
	sc := cc.created[0]
	zzReady(b, sc)
	fresh := zzRefresh(t, cc, b, sc)
	b.UpdateClientConnState(balancer.ClientConnState{ResolverState: resolver.State{Addresses: []resolver.Address{{Addr: "a2"}}}})
	b.UpdateSubConnState(fresh, balancer.SubConnState{ConnectivityState: connectivity.Ready})
	if len(fresh.addrs) != 1 || fresh.addrs[0].Addr != "a2" {
		t.Fatalf("replacement still on %v", fresh.addrs)
	}
}

var _ = status.Error
var _ = codes.OK
