package grpcgcp

import (
	"testing"

	"google.golang.org/grpc/balancer"
	"google.golang.org/grpc/connectivity"

	pb "github.com/GoogleCloudPlatform/grpc-gcp-go/grpcgcp/grpc_gcp"
)

// F9 (C03.atomic): getLeastBusySubConnRef reads the pool size (getConnectionPoolSize: lock, read, unlock) and
// then calls newSubConn (lock again). The schedule below is the one two saturated picks on a current and a
// stale picker can produce; the second pick's two halves are replayed around the first pick's growth and the
// READY report of the new connection, exactly as the scheduler may interleave them.
func TestZZ_F9_PoolExceedsMax(t *testing.T) {
	cc := &zzCC{}
	b := zzBalancer(cc, &pb.ChannelPoolConfig{MinSize: 1, MaxSize: 2, MaxConcurrentStreamsLowWatermark: 1})
	a := cc.created[0]
	zzReady(b, a)
	stale := cc.picker().(*gcpPicker)
	b.scRefs[a].streamsIncr() // saturate the only channel

	// pick 2 (on the stale picker), first half: size check passes (1 < 2)
	max := int(b.cfg.GetChannelPool().GetMaxSize())
	if !(b.getConnectionPoolSize() < max) {
		t.Fatal("precondition")
	}
	// pick 1 (any picker) runs completely: grows the pool to 2 ...
	if _, err := stale.getLeastBusySubConnRef(); err != balancer.ErrNoSubConnAvailable {
		t.Fatalf("pick 1: %v", err)
	}
	if len(cc.created) != 2 {
		t.Fatalf("pick 1 did not grow: %d", len(cc.created))
	}
	// ... and the new connection becomes READY
	zzReady(b, cc.created[1])
	b.UpdateSubConnState(cc.created[1], balancer.SubConnState{ConnectivityState: connectivity.Ready})
	// pick 2, second half: acts on its stale size check
	b.newSubConn()
	if n := b.getConnectionPoolSize(); n > max {
		t.Fatalf("pool size %d exceeds maxSize %d", n, max)
	}
}
