// Development-time reproducer for the data races F15a/b/g (subConnRef.subConn / lastResp / refreshCnt).
// Needs zz_fix_repro_test.go (harness) in the same directory. Run with: go test -race -run ZZ_F15abg -count=1 .
// Unrepaired tree: "WARNING: DATA RACE" (test fails under -race); repaired tree: passes.
package grpcgcp

import (
	"context"
	"sync"
	"testing"
	"time"

	"google.golang.org/grpc/balancer"

	pb "github.com/GoogleCloudPlatform/grpc-gcp-go/grpcgcp/grpc_gcp"
)

func TestZZ_F15abg_PicksAndCompletionsVsRefreshSwap(t *testing.T) {
	cc := &zzCC{}
	b := zzBalancer(cc, &pb.ChannelPoolConfig{MinSize: 1, MaxSize: 1, UnresponsiveDetectionMs: 1, UnresponsiveCalls: 1})
	sc0 := cc.created[0]
	zzReady(b, sc0)
	p := cc.picker()

	var wg sync.WaitGroup
	stop := make(chan struct{})
	// picks + completions (responses and deadline-exceeded completions) on the only channel
	for g := 0; g < 4; g++ {
		wg.Add(1)
		go func(g int) {
			defer wg.Done()
			for i := 0; ; i++ {
				select {
				case <-stop:
					return
				default:
				}
				ctx, cancel := context.WithTimeout(zzCtx(&zzReq{Key: "k"}, &zzRes{Key: "k"}), time.Nanosecond)
				res, err := p.Pick(balancer.PickInfo{FullMethodName: "plain", Ctx: ctx})
				if err == nil && res.Done != nil {
					var rpcErr error
					if (i+g)%2048 != 0 {
						rpcErr = deErr
					}
					res.Done(balancer.DoneInfo{Err: rpcErr})
				}
				cancel()
			}
		}(g)
	}
	// the balancer side: whenever a refresh created a replacement, make it READY (the swap)
	deadline := time.Now().Add(500 * time.Millisecond)
	seen := 1
	for time.Now().Before(deadline) {
		cc.mu.Lock()
		var fresh []*zzSC
		if len(cc.created) > seen {
			fresh = append(fresh, cc.created[seen:]...)
			seen = len(cc.created)
		}
		cc.mu.Unlock()
		for _, sc := range fresh {
			zzReady(b, sc)
		}
		time.Sleep(time.Millisecond)
	}
	close(stop)
	wg.Wait()
	if seen < 2 {
		t.Skip("no refresh happened in this run; nothing exercised")
	}
}
