package grpcgcp

import (
	"context"
	"testing"
	"time"

	"google.golang.org/grpc"
)

func zzStream(ctx context.Context) grpc.ClientStream {
	streamer := func(ctx context.Context, desc *grpc.StreamDesc, cc *grpc.ClientConn, method string, opts ...grpc.CallOption) (grpc.ClientStream, error) {
		return nil, nil
	}
	cs, _ := GCPStreamClientInterceptor(ctx, &grpc.StreamDesc{}, nil, "m", streamer)
	return cs
}

// F10: Header/Trailer/CloseSend/Context are promoted from the embedded (still nil) ClientStream.
func TestZZ_F10_PromotedMethodsBeforeFirstSend(t *testing.T) {
	for name, f := range map[string]func(cs grpc.ClientStream){
		"Header":    func(cs grpc.ClientStream) { cs.Header() },
		"Trailer":   func(cs grpc.ClientStream) { cs.Trailer() },
		"CloseSend": func(cs grpc.ClientStream) { cs.CloseSend() },
		"Context":   func(cs grpc.ClientStream) { cs.Context() },
	} {
		func() {
			defer func() {
				if r := recover(); r != nil {
					t.Errorf("%s before the first SendMsg panics: %v", name, r)
				}
			}()
			f(zzStream(context.Background()))
		}()
	}
}

// F13: RecvMsg before any SendMsg never returns when the call's context ends.
func TestZZ_F13_RecvMsgIgnoresContext(t *testing.T) {
	ctx, cancel := context.WithCancel(context.Background())
	cs := zzStream(ctx)
	done := make(chan struct{})
	go func() { cs.RecvMsg(nil); close(done) }()
	cancel()
	select {
	case <-done:
	case <-time.After(time.Second):
		t.Errorf("RecvMsg still blocked 1s after the context was cancelled")
	}
}
