package grpcgcp

import (
	"testing"
	"time"

	pb "github.com/GoogleCloudPlatform/grpc-gcp-go/grpcgcp/grpc_gcp"
)

// F11: unresponsive_detection_ms = 2^31, one refresh since the last response: window must be 2^32 ms, was 0.
func TestZZ_F11_WindowOverflow(t *testing.T) {
	gb := &gcpBalancer{cfg: &GCPBalancerConfig{ApiConfig: &pb.ApiConfig{ChannelPool: &pb.ChannelPoolConfig{UnresponsiveDetectionMs: 1 << 31}}}}
	p := &gcpPicker{gb: gb}
	if got, want := p.unresponsiveWindow(&subConnRef{refreshCnt: 1}), time.Millisecond*time.Duration(1<<32); got != want {
		t.Errorf("window = %v, want %v", got, want)
	}
	gb.cfg.ChannelPool.UnresponsiveDetectionMs = 2000
	for k, want := range map[uint32]time.Duration{0: 2 * time.Second, 3: 16 * time.Second, 40: time.Duration(1<<63 - 1)} {
		if got := p.unresponsiveWindow(&subConnRef{refreshCnt: k}); got != want && !(k == 40 && got > 1<<60) {
			t.Errorf("k=%d window = %v, want %v", k, got, want)
		}
	}
}
