package grpcgcp

import (
	"context"
	"errors"
	"sync"
	"testing"

	"google.golang.org/grpc"
)

// F15h: SendMsg (failing stream creation, writes initStreamErr under the lock) concurrent with RecvMsg
// (returns cs.initStreamErr after Unlock) — allowed by the ClientStream contract, racy here.
func TestZZ_F15h_InitStreamErrRace(t *testing.T) {
	streamer := func(ctx context.Context, desc *grpc.StreamDesc, cc *grpc.ClientConn, method string, opts ...grpc.CallOption) (grpc.ClientStream, error) {
		return nil, errors.New("cannot create")
	}
	cs, _ := GCPStreamClientInterceptor(context.Background(), &grpc.StreamDesc{}, nil, "m", streamer)
	var wg sync.WaitGroup
	wg.Add(2)
	go func() { defer wg.Done(); for i := 0; i < 2000; i++ { cs.SendMsg(1) } }()
	go func() { defer wg.Done(); for i := 0; i < 2000; i++ { cs.RecvMsg(nil) } }()
	wg.Wait()
}
